# an MProcess that quara accepts as physical (is_physicality_required=True) but whose to_povm() raises
import numpy as np
from quara.objects.composite_system_typical import generate_composite_system
from quara.objects.mprocess import MProcess
c = generate_composite_system("qutrit", 1)
d = 3
B = [np.asarray(b.toarray() if hasattr(b, "toarray") else b) for b in c.basis()]
def hs_of(K):  # HS matrix of X -> K X K^dagger in the working basis
    return np.array([[np.trace(a.conj().T @ K @ b @ K.conj().T).real for b in B] for a in B])
for delta in (0.3e-13, 0.9e-13, 1.5e-13):
    hss = [hs_of(np.diag([float(i == x) for i in range(d)])) for x in range(d)]
    hss[0][0, 3] += delta  # coefficients of the two diagonal Gell-Mann matrices in the first row (= induced POVM element)
    hss[0][0, 8] += delta
    try:
        m = MProcess(c, hss)  # physicality required
    except ValueError as e:
        print(delta, "MProcess refused:", e); continue
    try:
        m.to_povm(); print(delta, "MProcess accepted, to_povm fine")
    except ValueError as e:
        print(delta, "MProcess accepted, to_povm raises:", e)
