import sys
ROOT = "/tmp/hist_c08/"
def edit(path, pairs):
    with open(ROOT + path, newline="") as f:
        s = f.read()
    nl = "\r\n" if "\r\n" in s else "\n"
    for old, new in pairs:
        old = old.replace("\n", nl); new = new.replace("\n", nl)
        assert s.count(old) == 1, (path, old[:60], s.count(old))
        s = s.replace(old, new)
    with open(ROOT + path, "w", newline="") as f:
        f.write(s)

SQT = "quara/protocol/qtomography/standard/standard_qtomography.py"
name = sys.argv[1]
if name == "M1":   # calc_c_qpt memoised by sizes + schedules + flag (not by tester arrays)
    edit("quara/protocol/qtomography/standard/standard_qpt.py", [(
'''    coeffs_0th = dict()  # b
''',
'''    key = (
        len(states),
        states[0].vec.shape[0],
        tuple(len(povm.vecs) for povm in povms),
        tuple(tuple(s) for s in schedules),
        on_para_eq_constraint,
    )
    if key in _C_QPT_CACHE:
        return _C_QPT_CACHE[key]
    coeffs_0th = dict()  # b
'''), (
'''    return coeffs_0th, coeffs_1st, c_dict
''',
'''    _C_QPT_CACHE[key] = (coeffs_0th, coeffs_1st, c_dict)
    return coeffs_0th, coeffs_1st, c_dict


_C_QPT_CACHE = dict()
''')])
elif name == "M2":  # matA / vecB cached; calc_fisher_matrix accumulates into a view of the cached vecB
    edit(SQT, [(
'''        self._coeffs_1st = None
''',
'''        self._coeffs_1st = None
        self._matA = None
        self._vecB = None
'''), (
'''        sorted_coeffs_1st = sorted(self._coeffs_1st.items())
        sorted_values = [k[1] for k in sorted_coeffs_1st]
        matA = np.vstack(sorted_values)
        return matA
''',
'''        if getattr(self, "_matA", None) is None:
            sorted_coeffs_1st = sorted(self._coeffs_1st.items())
            sorted_values = [k[1] for k in sorted_coeffs_1st]
            self._matA = np.vstack(sorted_values)
        return self._matA
'''), (
'''        sorted_coeffs_0th = sorted(self._coeffs_0th.items())
        sorted_values = [k[1] for k in sorted_coeffs_0th]
        vecB = np.vstack(sorted_values).flatten()
        return vecB
''',
'''        if getattr(self, "_vecB", None) is None:
            sorted_coeffs_0th = sorted(self._coeffs_0th.items())
            sorted_values = [k[1] for k in sorted_coeffs_0th]
            self._vecB = np.vstack(sorted_values).flatten().astype(np.float64)
        return self._vecB
'''), (
'''        prob_dist = (
            matA[size_prob_dist * j : size_prob_dist * (j + 1)] @ var
            + vecB[size_prob_dist * j : size_prob_dist * (j + 1)]
        )
''',
'''        prob_dist = vecB[size_prob_dist * j : size_prob_dist * (j + 1)]
        prob_dist += matA[size_prob_dist * j : size_prob_dist * (j + 1)] @ var
''')])
elif name == "M3":  # pickles made smaller: coefficients dropped and rebuilt on load - with the flag looked up under a wrong key
    edit("quara/protocol/qtomography/standard/standard_qpt.py", [(
'''    def estimation_object_type(self) -> type:
        return Gate
''',
'''    def estimation_object_type(self) -> type:
        return Gate

    def __getstate__(self):
        state = dict(self.__dict__)
        for name in ("_coeffs_0th", "_coeffs_1st", "_C"):
            state.pop(name, None)
        return state

    def __setstate__(self, state):
        self.__dict__.update(state)
        self._set_coeffs(self._experiment, state.get("on_para_eq_constraint", False))
''')])
elif name == "M4":  # Experiment caches per-schedule distributions; list setters do not clear the cache
    edit("quara/qcircuit/experiment.py", [(
'''        self._schedules: List[List[Tuple[str, int]]] = schedules
        self._seed_data: int = seed_data
''',
'''        self._schedules: List[List[Tuple[str, int]]] = schedules
        self._seed_data: int = seed_data
        self._prob_dist_cache = dict()
'''), (
'''        self._validate_schedules(value)
        self._schedules = value
''',
'''        self._validate_schedules(value)
        self._schedules = value
        self._prob_dist_cache = dict()
'''), (
'''        self._validate_schedule_index(schedule_index)
        schedule = self.schedules[schedule_index]
''',
'''        self._validate_schedule_index(schedule_index)
        if schedule_index in self._prob_dist_cache:
            return self._prob_dist_cache[schedule_index].copy()
        schedule = self.schedules[schedule_index]
'''), (
'''        prob_dist = op.compose_qoperations(*targets)
        return prob_dist.ps
''',
'''        prob_dist = op.compose_qoperations(*targets)
        self._prob_dist_cache[schedule_index] = prob_dist.ps.copy()
        return prob_dist.ps
''')])
elif name == "M5":  # calc_prob_dists remembers the variables of an object by id()
    edit(SQT, [(
'''        if self._on_para_eq_constraint:
            tmp_prob_dists = self.calc_matA() @ qope.to_var() + self.calc_vecB()
        else:
            tmp_prob_dists = (
                self.calc_matA() @ qope.to_stacked_vector() + self.calc_vecB()
            )
''',
'''        if not hasattr(self, "_var_by_object"):
            self._var_by_object = dict()
        var = self._var_by_object.get(id(qope))
        if var is None:
            if self._on_para_eq_constraint:
                var = qope.to_var()
            else:
                var = qope.to_stacked_vector()
            self._var_by_object[id(qope)] = var
        tmp_prob_dists = self.calc_matA() @ var + self.calc_vecB()
''')])
elif name == "M6":  # option combination: flag forwarded to the coefficients only for non-estimation objects
    edit("quara/protocol/qtomography/standard/standard_qst.py", [(
'''        self._set_coeffs(experiment, on_para_eq_constraint, state.dim)
''',
'''        self._set_coeffs(
            experiment, on_para_eq_constraint and not is_estimation_object, state.dim
        )
''')])
elif name == "M7":  # the schedules setter of Experiment keeps the list object of the constructor and rewrites it in place
    edit("quara/qcircuit/experiment.py", [(
'''        self._validate_schedules(value)
        self._schedules = value
''',
'''        self._validate_schedules(value)
        self._schedules[:] = value
''')])
elif name == "M9":   # outer products cached on the tester POVM object under the schedule index
    edit("quara/protocol/qtomography/standard/standard_qpt.py", [(
"""        schedule_c_list = []
        for m_index, povm_vec in enumerate(povm.vecs):  # each measurement
            c = np.outer(povm_vec, state.vec).flatten()
""",
"""        schedule_c_list = []
        c_cache = povm.__dict__.setdefault("_c_qpt_cache", dict())
        if schedule_index not in c_cache:
            c_cache[schedule_index] = [
                np.outer(povm_vec, state.vec).flatten() for povm_vec in povm.vecs
            ]
        for m_index, povm_vec in enumerate(povm.vecs):  # each measurement
            c = c_cache[schedule_index][m_index]
""")])
elif name == "M10":  # per-schedule cache in Experiment, cleared by the list setters but not by the schedules setter
    edit("quara/qcircuit/experiment.py", [(
"""        self._schedules: List[List[Tuple[str, int]]] = schedules
        self._seed_data: int = seed_data
""",
"""        self._schedules: List[List[Tuple[str, int]]] = schedules
        self._seed_data: int = seed_data
        self._prob_dist_cache = dict()
"""), (
"""        else:
            self._states = value
""",
"""        else:
            self._states = value
            self._prob_dist_cache = dict()
"""), (
"""        else:
            self._povms = value
""",
"""        else:
            self._povms = value
            self._prob_dist_cache = dict()
"""), (
"""        else:
            self._gates = value
""",
"""        else:
            self._gates = value
            self._prob_dist_cache = dict()
"""), (
"""        else:
            self._mprocesses = value
""",
"""        else:
            self._mprocesses = value
            self._prob_dist_cache = dict()
"""), (
"""        self._validate_schedule_index(schedule_index)
        schedule = self.schedules[schedule_index]
""",
"""        self._validate_schedule_index(schedule_index)
        if schedule_index in self._prob_dist_cache:
            return self._prob_dist_cache[schedule_index].copy()
        schedule = self.schedules[schedule_index]
"""), (
"""        prob_dist = op.compose_qoperations(*targets)
        return prob_dist.ps
""",
"""        prob_dist = op.compose_qoperations(*targets)
        self._prob_dist_cache[schedule_index] = prob_dist.ps.copy()
        return prob_dist.ps
""")])
else:
    raise SystemExit("unknown")
print("applied", name)
