"""history-type mutations for C07 teeth: python3 mutate.py <name>   (applies to /tmp/hist_c07)"""
import sys
R = "/tmp/hist_c07/"


def edit(path, old, new, count=1):
    with open(R + path, newline="") as f:
        s = f.read()
    nl = "\r\n" if "\r\n" in s else "\n"
    old, new = old.replace("\n", nl), new.replace("\n", nl)
    assert s.count(old) == count, (path, s.count(old))
    s = s.replace(old, new)
    with open(R + path, "w", newline="") as f:
        f.write(s)


def m1():
    """state left on a re-used operand: Povm (x) Povm keeps the vec permutation on the LEFT operand, per size of the partner"""
    edit("quara/objects/operators.py", '''    perm_matrix = matrix_util.calc_permutation_matrix(system_order, size_list)
    tensor_vecs = [perm_matrix @ tensor_vec for tensor_vec in tensor_vecs]

    # permutate list of tensor vecs
''', '''    memo = povm1.__dict__.setdefault("_tp_perm", {})
    perm_matrix = memo.get(tuple(size_list))
    if perm_matrix is None:
        perm_matrix = memo[tuple(size_list)] = matrix_util.calc_permutation_matrix(system_order, size_list)
    tensor_vecs = [perm_matrix @ tensor_vec for tensor_vec in tensor_vecs]

    # permutate list of tensor vecs
''')


def m2():
    """module-level cache keyed by too little: CompositeSystem interns its total basis by ((name, dim), ...)"""
    edit("quara/objects/composite_system.py", '''        # calculate tensor product of ElamentalSystem list for getting total MatrixBasis
        if len(self._elemental_systems) == 1:''', '''        # calculate tensor product of ElamentalSystem list for getting total MatrixBasis
        key = tuple((e_sys.name, e_sys.dim) for e_sys in self._elemental_systems)
        if len(self._elemental_systems) > 1 and key in _TOTAL_BASIS_CACHE:
            self._total_basis = _TOTAL_BASIS_CACHE[key]
        elif len(self._elemental_systems) == 1:''')
    edit("quara/objects/composite_system.py", '''            self._total_basis = SparseMatrixBasis(temp)

        self._basis_basisconjugate = None''', '''            self._total_basis = SparseMatrixBasis(temp)
            if len(_TOTAL_BASIS_CACHE) > 64:
                _TOTAL_BASIS_CACHE.clear()
            _TOTAL_BASIS_CACHE[key] = self._total_basis

        self._basis_basisconjugate = None''')
    edit("quara/objects/composite_system.py", '''class CompositeSystem:
''', '''_TOTAL_BASIS_CACHE = {}


class CompositeSystem:
''')


def m3():
    """aliasing result later overwritten: Gate (x) Gate writes its HS into one scratch buffer per shape and hands it to the new Gate"""
    edit("quara/objects/operators.py", '''    to_hs = _tensor_product_hs_hs(gate1.hs, gate2.hs, e_sys_list)

    # create Gate''', '''    to_hs = _tensor_product_hs_hs(gate1.hs, gate2.hs, e_sys_list)
    buf = _GATE_SCRATCH.get(to_hs.shape)
    if buf is None:
        buf = _GATE_SCRATCH[to_hs.shape] = np.empty(to_hs.shape, dtype=np.float64)
    buf[...] = to_hs
    to_hs = buf

    # create Gate''')
    edit("quara/objects/operators.py", '''def tensor_product(*elements)''', '''_GATE_SCRATCH = {}


def tensor_product(*elements)''')


def m4():
    """'already computed' flag on the source object: an embedded object is remembered per source and returned again"""
    edit("quara/objects/qoperation.py", '''        num_qutrits = qoperation.composite_system.num_e_sys
        c_sys_qubits = CompositeSystem(e_syss)
''', '''        num_qutrits = qoperation.composite_system.num_e_sys
        done = getattr(qoperation, "_embedded_qubits", None)
        if done is not None and len(e_syss) == done.composite_system.num_e_sys:
            return done
        c_sys_qubits = CompositeSystem(e_syss)
''')
    edit("quara/objects/qoperation.py", '''            perm_matrix, c_sys_qubits
        )
        return qope_qubits''', '''            perm_matrix, c_sys_qubits
        )
        qoperation._embedded_qubits = qope_qubits
        return qope_qubits''')


def m5():
    """non-default option dropped: the embedded MProcess is built without the source's outcome shape"""
    edit("quara/objects/mprocess.py", '''            c_sys_qubits,
            hss,
            shape=self.shape,
            mode_sampling=self.mode_sampling,''', '''            c_sys_qubits,
            hss,
            mode_sampling=self.mode_sampling,''')


def m6():
    """stale cache after a setter: State (x) State keeps a contiguous copy of the left operand's vec on the object; set_zero() does not drop it"""
    edit("quara/objects/operators.py", '''    tensor_vec = np.kron(state1.vec, state2.vec)
''', '''    vec1 = getattr(state1, "_vec_contiguous", None)
    if vec1 is None:
        vec1 = state1._vec_contiguous = np.ascontiguousarray(state1.vec).copy()
    tensor_vec = np.kron(vec1, state2.vec)
''')


def m7():
    """cache keyed by id(): MatrixBasis (x) MatrixBasis memoised under the ids of the two operands"""
    edit("quara/objects/operators.py", '''    elif type(elem1) == MatrixBasis and type(elem2) == MatrixBasis:
        # MatrixBasis (x) MatrixBasis -> MatrixBasis
        new_basis = [''', '''    elif type(elem1) == MatrixBasis and type(elem2) == MatrixBasis:
        # MatrixBasis (x) MatrixBasis -> MatrixBasis
        hit = _BASIS_MEMO.get((id(elem1), id(elem2)))
        if hit is not None:
            return hit
        new_basis = [''')
    edit("quara/objects/operators.py", '''        m_basis = MatrixBasis(new_basis)
        return m_basis''', '''        m_basis = MatrixBasis(new_basis)
        _BASIS_MEMO[(id(elem1), id(elem2))] = m_basis
        return m_basis''')
    edit("quara/objects/operators.py", '''def tensor_product(*elements)''', '''_BASIS_MEMO = {}


def tensor_product(*elements)''')


def m8():
    """option honoured on the first call only / state on the LEFT operand: MProcess (x) Gate remembers the HS permutation of its first product on the MProcess's composite system"""
    edit("quara/objects/operators.py", '''    perm_matrix = matrix_util.calc_permutation_matrix(system_order, size_list)
    to_hs = perm_matrix @ to_hs @ perm_matrix.T
''', '''    owner = e_sys_list[0]
    perm_matrix = getattr(owner, "_hs_perm", None)
    if perm_matrix is None or perm_matrix.shape[0] != to_hs.shape[0]:
        perm_matrix = matrix_util.calc_permutation_matrix(system_order, size_list)
        owner._hs_perm = perm_matrix
    to_hs = perm_matrix @ to_hs @ perm_matrix.T
''')


if __name__ == "__main__":
    globals()[sys.argv[1]]()
    print("applied", sys.argv[1])
